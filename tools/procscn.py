"""Process-level scenarios for C09 / C19: build real conditions for each stage outcome / environment fault, run the
real compiler under strace, and abstract the syscall trace into the model's file-system operations."""
import glob
import hashlib
import os
import re
import shutil
import subprocess

import common
import ttf

FEAT = ('table(feature) fone { id = 1001; name.1033 = string("First"); settings { a { value=0; name.1033=string("Off"); } '
        'b { value = 1; name.1033 = string("On"); } } default = a; } endtable;\n')
GOOD = '#include "stddef.gdh"\ntable(glyph) c1 = glyphid(3..6); c4 = glyphid(7); endtable;\n' + FEAT + 'table(sub) c1 > c4; endtable;\n'
WARN = '#include "stddef.gdh"\ntable(glyph) c1 = glyphid(3..6); c4 = glyphid(7); c1 += glyphid(8); cUnused += glyphid(9); endtable;\n' + FEAT + 'table(sub) c1 > c4; _ c1 > c4 c1; endtable;\n'
SYNTAX = '#include "stddef.gdh"\ntable(glyph) c1 = glyphid(3..6) c4 = = ; endtable;\n'
SEMANTIC = '#include "stddef.gdh"\ntable(glyph) c1 = glyphid(3..6); endtable;\ntable(sub) c1 > cUndefined; endtable;\n'
PPERR = '#include "stddef.gdh"\n#include "no_such_file.gdh"\ntable(glyph) c1 = glyphid(3..6); c4 = glyphid(7); endtable;\ntable(sub) c1 > c4; endtable;\n'

# accepted programs that draw a warning early (a global set twice: 1506) and use a feature whose checks run later:
# every legal justification level, ligature components, mirroring, a collision pass
def _rich_warn(glyphs, rules):
    return ('#include "stddef.gdh"\nScriptDirection = HORIZONTAL_LEFT_TO_RIGHT;\nScriptDirection = HORIZONTAL_LEFT_TO_RIGHT;\n'
            'table(glyph) c1 = glyphid(3..6); c4 = glyphid(7); ' + glyphs + ' endtable;\n' + rules)


RICH_WARN = {
    "justify_levels": _rich_warn("cJ0 = glyphid(8) {justify.0.stretch = 400m; justify.0.shrink = 100m; justify.0.weight = 4}; cJ1 = glyphid(9) {justify.1.stretch = 60m}; "
                                 "cJ2 = glyphid(10) {justify.2.stretch = 30m}; cJ3 = glyphid(11) {justify.3.stretch = 10m; justify.3.step = 5m};",
                                 "table(pos) c1 {kern.x = 20m} / c4 _; endtable;\n"),
    "ligature_components": _rich_warn("cL = glyphid(8) {component.a = box(0, 0, 200m, 400m); component.b = box(200m, 0, 400m, 400m)};",
                                      "table(sub) c1 c4 > cL:(1 2) {component {a.ref = @1; b.ref = @2}} _; endtable;\n"),
    "bidi_mirroring": _rich_warn("cN = glyphid(9); cM = glyphid(8) {mirror.glyph = cN; mirror.isEncoded = 1};", "Bidi = true;\ntable(sub) c1 > c4; endtable;\n"),
    "point_functions": _rich_warn("cP = glyphid(8) {p1 = point(10m, 20m); p2 = point(10m, 20m, 3m, 4m); p3 = gpoint(2); p4 = gpoint(3, 10m, 20m)}; cQ = glyphid(9) {q = gpoint(1, 2m, 3m)};",
                                  "table(pos) cP cQ {attach {to = @1; at = p2; with = q}}; endtable;\n"),
    "collision_pass": _rich_warn("cC = glyphid(8..10) {collision.flags = 1};", "table(pos) pass(1) {CollisionFix = 2} c1 {shift.x = 5m}; endpass; endtable;\n"),
}

FIELDS = ["sameInOut", "gdlOpens", "encodingOk", "tmpOk", "ppOk", "parseOk", "postParseOk", "fontOk", "optsOk",
          "preCompileOk", "dbgFiles", "dbgXml", "outOpens", "outWrites", "errFileOpens", "fsmOk"]


def base_scn():
    return dict(sameInOut=0, gdlOpens=1, encodingOk=1, tmpOk=1, ppOk=1, parseOk=1, postParseOk=1, fontOk=1, optsOk=1,
                preCompileOk=1, dbgFiles=0, dbgXml=0, outOpens=1, outWrites=1, errFileOpens=1, fsmOk=1)


def scenarios():
    """name -> (scenario fields changed, setup dict)."""
    S = []

    def add(name, changes, **setup):
        s = base_scn()
        s.update(changes)
        S.append((name, s, setup))
    add("ok", {})
    add("ok_warnings", {}, gdl=WARN)
    add("ok_quiet_wall", {}, gdl=WARN, opts=["-wall"])
    add("ok_ignore_warning", {}, gdl=WARN, opts=["-w3529", "-w2534"])
    for k in sorted(RICH_WARN):
        add("ok_early_warning_" + k, {}, gdl=RICH_WARN[k])
    add("ok_early_warning_ignored_justify_levels", {}, gdl=RICH_WARN["justify_levels"], opts=["-w1506"])
    add("ok_dbgxml", {"dbgXml": 1}, opts=["-d"])
    add("ok_dbgall", {"dbgFiles": 1, "dbgXml": 1}, opts=["-D"])
    add("ok_errfile_opt", {}, errfile="custom_err.txt")
    add("same_in_out", {"sameInOut": 1}, out="in.ttf")
    add("same_in_out_dot", {"sameInOut": 1}, out="./in.ttf")
    add("same_in_out_abs", {"sameInOut": 1}, out="ABS/in.ttf")
    add("same_in_out_symlink", {"sameInOut": 1}, out="link.ttf")
    add("same_in_out_hardlink", {"sameInOut": 1}, out="hard.ttf")
    add("gdl_missing", {"gdlOpens": 0}, gdlname="missing.gdl")
    add("encoding_utf8_bom", {"encodingOk": 0}, gdl_bytes=b"\xef\xbb\xbf" + GOOD.encode())
    add("encoding_utf16", {"encodingOk": 0}, gdl_bytes=b"\xff\xfe" + GOOD.encode("utf-16-le"))
    add("encoding_8bit", {"encodingOk": 0}, gdl_bytes=b"\xe9" + GOOD.encode())
    add("gdlpp_missing", {"ppOk": 0}, gdlpp="/nonexistent/gdlpp")
    add("gdlpp_fails", {"ppOk": 0}, gdlpp="/bin/false")
    add("fork_fails", {"ppOk": 0}, fork_fails=True)
    add("pp_error_directive", {"ppOk": 0}, gdl=GOOD.replace("table(glyph)", "#error stop\ntable(glyph)", 1))
    add("pp_stray_endif", {"ppOk": 0}, gdl=GOOD.replace("table(glyph)", "#endif\ntable(glyph)", 1))
    add("pp_unterminated_if", {"ppOk": 0}, gdl=GOOD.replace("table(glyph)", "#if 1\ntable(glyph)", 1))
    add("pp_unterminated_comment", {"ppOk": 0}, gdl=GOOD + "/* never closed\n")
    add("pp_missing_include_is_warning", {}, gdl=PPERR)
    add("syntax_error", {"parseOk": 0}, gdl=SYNTAX)
    add("semantic_error", {"preCompileOk": 0}, gdl=SEMANTIC)
    add("unknown_code_page", {"preCompileOk": 0}, gdl='#include "stddef.gdh"\ntable(glyph) c1 = codepoint("a", 99999); c4 = glyphid(7); endtable;\ntable(sub) c1 > c4; endtable;\n')
    add("font_missing", {"fontOk": 0}, fontname="nofont.ttf")
    add("font_garbage", {"fontOk": 0}, font_bytes=b"this is not a font" * 20)
    add("bad_version", {"optsOk": 0}, opts=["-v9"])
    add("bad_namestart", {"optsOk": 0}, opts=["-n100"])
    add("out_dir_missing", {"outOpens": 0}, out="nodir/out.ttf")
    add("out_is_dir", {"outOpens": 0}, out="adir")
    add("out_is_empty_dir", {"outOpens": 0}, out="adir/build.v2")     # (an empty directory could be removed by unlink-like calls)
    add("name_overflow", {"outWrites": 0}, opts=["-n32767"])
    add("errfile_unwritable", {"errFileOpens": 0}, errfile="nodir/err.txt")
    # an error file that is one of the run's own files must be refused, not written over them
    add("errfile_is_input_font", {"errFileOpens": 0}, errfile="in.ttf")
    add("errfile_is_link_to_input_font", {"errFileOpens": 0}, errfile="link.ttf")
    add("errfile_is_gdl_file", {"errFileOpens": 0}, errfile="./p.gdl")
    add("syntax_and_errfile_unwritable", {"parseOk": 0, "errFileOpens": 0}, gdl=SYNTAX, errfile="nodir/err.txt")
    add("semantic_error_w_names_error_ids", {"preCompileOk": 0}, gdl=SEMANTIC, opts=["-w3139", "-w3137", "-w3134", "-w3141", "-w3162", "-w139"])
    add("syntax_error_w_names_error_ids", {"parseOk": 0}, gdl=SYNTAX, opts=["-w103", "-w102", "-w139", "-w1113"])
    # sources, input font and output in three different directories: the error file goes next to the GDL file
    add("ok_three_dirs", {}, gdldir="src", fontdir="fonts", out="adir/out.ttf")
    add("ok_three_dirs_bare_errfile", {}, gdldir="src", fontdir="fonts", out="adir/out.ttf", errfile="errs.txt")
    add("semantic_error_three_dirs", {"preCompileOk": 0}, gdl=SEMANTIC, gdldir="src", fontdir="fonts", out="adir/out.ttf")
    add("ok_font_elsewhere_dbg", {"dbgFiles": 1, "dbgXml": 1}, fontdir="fonts", opts=["-D"])
    add("ok_gdl_elsewhere_abs", {}, gdldir="ABS/src2")
    # output font omitted: its name is derived from the input font's (xyz.ttf -> xyz_gr.ttf; without a dot: xyz -> xyz_gr)
    add("ok_output_omitted", {}, out=None)
    add("ok_output_omitted_font_without_dot", {}, out=None, fontname_copy="infont")
    add("semantic_error_output_omitted_font_without_dot", {"preCompileOk": 0}, gdl=SEMANTIC, out=None, fontname_copy="infont")
    # the derived output name is the input font itself, reached through a symbolic link: f.ttf -> f_gr.ttf
    add("derived_output_is_the_linked_input", {"sameInOut": 1}, out=None, fontname_link=("f.ttf", "f_gr.ttf"))
    add("semantic_error_dbg", {"preCompileOk": 0, "dbgFiles": 1, "dbgXml": 1}, gdl=SEMANTIC, opts=["-D"])
    # every failure stage with all debug output requested (the temporary file of the pre-processor must go whatever is asked)
    add("syntax_error_dbgall", {"parseOk": 0, "dbgFiles": 1, "dbgXml": 1}, gdl=SYNTAX, opts=["-D"])
    add("syntax_error_dbgxml_then_dbgall", {"parseOk": 0, "dbgFiles": 1, "dbgXml": 1}, gdl=SYNTAX, opts=["-d", "-D"])
    add("font_garbage_dbgall", {"fontOk": 0, "dbgFiles": 1, "dbgXml": 1}, font_bytes=b"this is not a font" * 20, opts=["-D"])
    add("pp_error_dbgall", {"ppOk": 0, "dbgFiles": 1, "dbgXml": 1}, gdl=GOOD.replace("table(glyph)", "#error stop\ntable(glyph)", 1), opts=["-D"])
    # debug files next to an output font whose path has more dots than the one before the extension
    add("ok_dbgxml_dotted_name", {"dbgXml": 1}, opts=["-d"], out="pig.v2.ttf")
    add("ok_dbgxml_dot_slash", {"dbgXml": 1}, opts=["-d"], out="./dot.ttf")
    add("ok_dbgall_dotted_dir", {"dbgFiles": 1, "dbgXml": 1}, opts=["-D"], out="adir/build.v2/out.ttf")
    # the input font is the compiler's own output (it already holds Graphite tables, which are replaced, not copied)
    add("ok_recompile_own_output", {}, font_recompiled=True)
    add("ok_recompile_own_output_dbg", {"dbgFiles": 1, "dbgXml": 1}, font_recompiled=True, opts=["-D"])
    # an error found only after the state machines have been generated (more than 65535 states): no font, destination untouched
    add("fsm_too_large", {"fsmOk": 0}, gdl=big_fsm_gdl())
    add("fsm_too_large_dbgxml", {"fsmOk": 0, "dbgXml": 1}, gdl=big_fsm_gdl(), opts=["-d"])
    return S


_BIG = []


def big_fsm_gdl():
    if not _BIG:
        import random
        import gen
        _BIG.append(gen.gen_big_fsm_program(random.Random(7), 1600, 60).gdl())
    return _BIG[0]


def sha(path):
    return hashlib.sha256(open(path, "rb").read()).hexdigest()


def snapshot(d):
    out = {}
    for root, dirs, files in os.walk(d):
        for dn in dirs:
            # directories too: one that existed before the run must still be there (an empty one can be removed by remove())
            out[os.path.relpath(os.path.join(root, dn), d) + "/"] = ("dir", "")
        for fn in files:
            p = os.path.join(root, fn)
            try:
                out[os.path.relpath(p, d)] = (os.path.getsize(p), sha(p))
            except OSError:
                pass
    return out


OPEN_RE = re.compile(r'^(\d+)\s+openat\(AT_FDCWD, "([^"]*)", ([A-Z_|0-9]+)(?:, \d+)?\)\s+= (-?\d+)')
UNLINK_RE = re.compile(r'^(\d+)\s+(?:unlink\("([^"]*)"\)|unlinkat\(AT_FDCWD, "([^"]*)", \d+\))\s+= (-?\d+)')
EXEC_RE = re.compile(r'^(\d+)\s+execve\("([^"]*)"')
RENAME_RE = re.compile(r'^(\d+)\s+rename(?:at2?)?\(')


def run_scenario(build, work, name, setup, pre_existing_out=None):
    """Returns dict: rc, ops (abstracted write ops in order), raw write paths, snapshots, error file text, stdout."""
    d = os.path.join(work, name)
    shutil.rmtree(d, ignore_errors=True)
    os.makedirs(d)
    os.makedirs(os.path.join(d, "adir", "build.v2"))
    font, _g, _c = ttf.simple_font(20)
    if setup.get("font_recompiled"):
        # the input font of this scenario is what the compiler makes of the plain font and another program
        pre = os.path.join(work, name + "_pre")
        shutil.rmtree(pre, ignore_errors=True)
        os.makedirs(pre)
        open(os.path.join(pre, "in.ttf"), "wb").write(font)
        shutil.copy(common.STDDEF, pre)
        open(os.path.join(pre, "q.gdl"), "w").write(WARN)
        subprocess.run([build["grcompiler"], "-q", "q.gdl", "in.ttf", "first.ttf"], cwd=pre, env=dict(os.environ, GDLPP=build["gdlpp"]), capture_output=True)
        if os.path.exists(os.path.join(pre, "first.ttf")):
            font = open(os.path.join(pre, "first.ttf"), "rb").read()
        shutil.rmtree(pre, ignore_errors=True)
    fontname = setup.get("fontname", "in.ttf")
    if "fontname" not in setup:
        open(os.path.join(d, "in.ttf"), "wb").write(setup.get("font_bytes", font))
        os.symlink("in.ttf", os.path.join(d, "link.ttf"))
        os.link(os.path.join(d, "in.ttf"), os.path.join(d, "hard.ttf"))
    if "fontdir" in setup:
        os.makedirs(os.path.join(d, setup["fontdir"]), exist_ok=True)
        fontname = os.path.join(setup["fontdir"], "in.ttf")
        open(os.path.join(d, fontname), "wb").write(setup.get("font_bytes", font))
    gdldir = setup.get("gdldir", "").replace("ABS", d)
    if gdldir:
        os.makedirs(os.path.join(d, gdldir), exist_ok=True)
    shutil.copy(common.STDDEF, os.path.join(d, gdldir))
    gdlname = setup.get("gdlname", os.path.join(gdldir, "p.gdl"))
    if "gdlname" not in setup:
        if "gdl_bytes" in setup:
            open(os.path.join(d, gdlname), "wb").write(setup["gdl_bytes"])
        else:
            open(os.path.join(d, gdlname), "w").write(setup.get("gdl", GOOD))
    if "fontname_copy" in setup:
        # the input font under another name (a copy; in.ttf stays where it is)
        fontname = setup["fontname_copy"]
        shutil.copy(os.path.join(d, "in.ttf"), os.path.join(d, fontname))
    if "fontname_link" in setup:
        linkname, realname = setup["fontname_link"]
        shutil.copy(os.path.join(d, "in.ttf"), os.path.join(d, realname))
        os.symlink(realname, os.path.join(d, linkname))
        fontname = linkname
    omit_out = ("out" in setup and setup["out"] is None)
    if omit_out:
        stem = os.path.basename(fontname)
        out_derived = (stem[:stem.index(".")] + "_gr" + stem[stem.index("."):]) if "." in stem else stem + "_gr"
        out = os.path.join(os.path.dirname(fontname), out_derived)
    else:
        out = setup.get("out", "out.ttf").replace("ABS", d)
    if pre_existing_out is not None and not os.path.isdir(os.path.join(d, out)):
        try:
            open(os.path.join(d, out), "wb").write(pre_existing_out)
        except OSError:
            pass
    errfile = setup.get("errfile")
    args = ["-q"] + setup.get("opts", []) + (["-e", errfile] if errfile else []) + [gdlname, fontname] + ([] if omit_out else [out])
    env = dict(os.environ)
    env["GDLPP"] = setup.get("gdlpp", build["gdlpp"])
    before = snapshot(d)
    tmp_before = set(glob.glob("/tmp/gdl??????"))
    log = os.path.join(d, "..", name + ".strace")
    cmd = ["strace", "-f", "-qq", "-e", "trace=openat,unlink,unlinkat,rename,renameat,renameat2,execve", "-o", log,
           build["grcompiler"]] + args
    if setup.get("fork_fails"):
        # the system cannot start another process: every fork / clone of the compiler fails with EAGAIN
        cmd = ["strace", "-f", "-qq", "-e", "trace=openat,unlink,unlinkat,rename,renameat,renameat2,execve,clone,clone3,fork,vfork",
               "-e", "inject=clone,clone3,fork,vfork:error=EAGAIN", "-o", log, build["grcompiler"]] + args
    r = subprocess.run(cmd, cwd=d, env=env, capture_output=True, timeout=120)
    after = snapshot(d)
    tmp_after = set(glob.glob("/tmp/gdl??????"))
    ops = []
    writes = []
    main_pid = None
    errpath = errfile or "gdlerr.txt"
    if "/" not in errpath:
        errpath = os.path.join(os.path.dirname(gdlname), errpath)   # a bare name is placed next to the GDL file
    for line in open(log, errors="replace"):
        if setup.get("fork_fails") and re.match(r"^\d+\s+(clone3?|v?fork)\(.*= -1 EAGAIN", line):
            ops.append("execPP")      # the attempt to run the pre-processor (which fails, as in the scenarios where gdlpp cannot be run)
            continue
        m = EXEC_RE.match(line)
        if m:
            if main_pid is None:
                main_pid = m.group(1)
            elif "gdlpp" in m.group(2) or m.group(2) in ("/bin/false", "/nonexistent/gdlpp"):
                if "execPP" not in ops[-1:]:
                    ops.append("execPP")
            continue
        m = OPEN_RE.match(line)
        if m:
            pid, path, flags, ret = m.group(1), m.group(2), m.group(3), int(m.group(4))
            wr = ("O_WRONLY" in flags or "O_RDWR" in flags or "O_CREAT" in flags or "O_TRUNC" in flags)
            if not wr:
                continue
            if pid != main_pid and main_pid is not None and "gdl" in path and path.startswith("/tmp/gdl"):
                continue   # the preprocessor writing its output into the temp file
            writes.append((path, flags, ret))
            if path.startswith("/tmp/gdl"):
                if ret >= 0 and "O_EXCL" in flags:
                    ops.append("createTmp")
            elif os.path.normpath(os.path.join(d, path)) == os.path.normpath(os.path.join(d, out)) or (os.path.exists(os.path.join(d, out)) and os.path.exists(os.path.join(d, path)) and os.path.samefile(os.path.join(d, path), os.path.join(d, out))):
                if ret >= 0:
                    ops.append("truncOut")
            elif os.path.normpath(os.path.join(d, path)) == os.path.normpath(os.path.join(d, errpath)):
                if ret >= 0:
                    ops.append("writeErrFile")
            elif re.search(r"dbg_\w+\.txt$|\.gdx$|dbg_\w+", os.path.basename(path)):
                if ret >= 0:
                    tag = "writeDebugXml" if path.endswith(".gdx") else "writeDebugFiles"
                    if tag not in ops:
                        ops.append(tag)
            else:
                ops.append("UNEXPECTED-WRITE:" + path)
            continue
        m = UNLINK_RE.match(line)
        if m:
            path = m.group(2) or m.group(3)
            if path.startswith("/tmp/gdl"):
                ops.append("unlinkTmp")
            elif os.path.normpath(os.path.join(d, path)) == os.path.normpath(os.path.join(d, out)):
                ops.append("removeOut")
            else:
                ops.append("UNEXPECTED-UNLINK:" + path)
            continue
        if RENAME_RE.match(line):
            ops.append("UNEXPECTED-RENAME:" + line.strip()[:120])
    errtext = ""
    ep = os.path.join(d, errpath)
    if os.path.isfile(ep):
        errtext = open(ep, errors="replace").read()
    try:
        os.unlink(log)
    except OSError:
        pass
    return {"dir": d, "rc": r.returncode, "stdout": (r.stdout + r.stderr).decode("latin-1"), "ops": ops, "writes": writes,
            "before": before, "after": after,
            # temporary files created by THIS run (per its own system-call trace) that still exist; a snapshot difference of
            # /tmp would also count files of compilations that other checks run at the same time
            "tmp_leaked": sorted(p for (p, fl, ret) in writes if p.startswith("/tmp/gdl") and "O_EXCL" in fl and ret >= 0 and os.path.exists(p)),
            "out": out, "errpath": errpath, "inputs": [os.path.normpath(os.path.relpath(os.path.join(d, x), d)) for x in (gdlname, fontname, os.path.join(gdldir, "stddef.gdh")) + ((setup["fontname_link"][1],) if "fontname_link" in setup else ())],
            "errtext": errtext, "args": args}


def model(scn):
    line = common.run_grcv(["mainsm " + " ".join(str(int(scn[f])) for f in FIELDS)])[0]
    f = dict(x.split("=", 1) for x in line.split(" "))
    return {"exit": int(f["exit"]), "errors": int(f["errors"]), "complete": f["complete"] == "true",
            "ops": [o for o in f["ops"].split(",") if o]}


def write_fault_sweep(build, work, limits=None, tag="wf"):
    """Compile a program whose font is a few tens of KB under a file-size limit (SIGXFSZ ignored, so the write that passes
    the limit fails with EFBIG) at several positions of the output, in particular inside the last tables, after which
    the compiler still rewrites the directory and the head table in place. Returns a list of
    (limit, exit status, output exists, error-135 reported, other files changed)."""
    import resource
    import signal
    import random
    import gen
    d = os.path.join(work, tag)
    shutil.rmtree(d, ignore_errors=True)
    os.makedirs(d)
    prog = gen.gen_match_program(random.Random(5), nglyphs=40, npasses=3, size="medium")
    gen.write_case(prog, d)
    env = dict(os.environ, GDLPP=build["gdlpp"])
    p = subprocess.run([build["grcompiler"], "-q", "p.gdl", "in.ttf", "out.ttf"], cwd=d, env=env, capture_output=True)
    if p.returncode != 0 or not os.path.exists(os.path.join(d, "out.ttf")):
        return None, []
    size = os.path.getsize(os.path.join(d, "out.ttf"))
    os.unlink(os.path.join(d, "out.ttf"))
    if limits is None:
        limits = sorted(set([1000, size // 4, size // 2, 3 * size // 4] + [size - k for k in (1, 4, 12, 40, 100, 300, 700, 1200, 2000, 3000, 4500)]))
    out = []
    for lim in limits:
        if lim <= 0 or lim >= size:
            continue

        def pre(lim=lim):
            signal.signal(signal.SIGXFSZ, signal.SIG_IGN)
            resource.setrlimit(resource.RLIMIT_FSIZE, (lim, lim))
        for fn in ("out.ttf", "gdlerr.txt"):
            if os.path.exists(os.path.join(d, fn)):
                os.unlink(os.path.join(d, fn))
        before = snapshot(d)
        p = subprocess.run([build["grcompiler"], "-q", "p.gdl", "in.ttf", "out.ttf"], cwd=d, env=env, preexec_fn=pre, capture_output=True)
        after = snapshot(d)
        err = open(os.path.join(d, "gdlerr.txt"), errors="replace").read() if os.path.exists(os.path.join(d, "gdlerr.txt")) else ""
        changed = sorted(k for k in set(before) | set(after) if before.get(k) != after.get(k) and k not in ("gdlerr.txt", "out.ttf"))
        out.append((lim, p.returncode, "out.ttf" in after, "error(135)" in err, changed))
    shutil.rmtree(d, ignore_errors=True)
    return size, out
