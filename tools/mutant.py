#!/usr/bin/env python3
"""Self-validation helper (not a registered check): apply a patch (or a python-described edit) to a scratch
worktree of /repo, run the suite there (optional) and run chosen checks against it via VERIF_REPO.

usage: mutant.py --patch file.diff --checks C02,C06 [--suite] [--tier quick]
       mutant.py --edit 'compiler/Fsm.cpp:::old text:::new text' --checks C02
The worktree and its build output are removed afterwards.
"""
import argparse
import os
import shutil
import subprocess
import sys

HERE = os.path.dirname(os.path.abspath(__file__))
VERIF = os.path.dirname(HERE)


def sh(cmd, **kw):
    return subprocess.run(cmd, shell=True, text=True, capture_output=True, **kw)


def main():
    ap = argparse.ArgumentParser()
    ap.add_argument("--patch")
    ap.add_argument("--edit", action="append", default=[])
    ap.add_argument("--checks", default="")
    ap.add_argument("--suite", action="store_true")
    ap.add_argument("--tier", default="quick")
    ap.add_argument("--seed", default="1")
    ap.add_argument("--keep", action="store_true")
    args = ap.parse_args()
    wt = "/var/tmp/grcverif_mut_%d" % os.getpid()
    sh("git -C /repo worktree prune")
    r = sh("git -C /repo worktree add --detach %s HEAD" % wt)
    if r.returncode != 0:
        print(r.stderr)
        return 2
    rc = 0
    try:
        if args.patch:
            r = sh("git -C %s apply %s" % (wt, os.path.abspath(args.patch)))
            if r.returncode != 0:
                print("patch failed:", r.stderr)
                return 2
        for e in args.edit:
            path, old, new = e.split(":::")
            fp = os.path.join(wt, path)
            s = open(fp, encoding="latin-1").read()
            if s.count(old) != 1:
                print("edit: %d occurrences of old text in %s" % (s.count(old), path))
                return 2
            open(fp, "w", encoding="latin-1").write(s.replace(old, new))
        print(sh("git -C %s diff --stat" % wt).stdout)
        if args.suite:
            b = wt + "_b"
            r = sh("cmake -G Ninja -S %s -B %s -DCMAKE_BUILD_TYPE=RelWithDebInfo -DCMAKE_CXX_FLAGS=-Wno-error >/dev/null && cmake --build %s -j16 >/dev/null && ctest --test-dir %s -j8 --timeout 900 2>&1 | tail -4" % (wt, b, b, b))
            print("SUITE:", r.stdout[-600:], r.stderr[-600:])
            shutil.rmtree(b, ignore_errors=True)
        env = dict(os.environ, VERIF_REPO=wt, VERIF_SEED=args.seed, VERIF_SCRATCH="/var/tmp/grcverif_mutscratch", VERIF_MUTANT="1")
        for c in [x for x in args.checks.split(",") if x]:
            r = subprocess.run([sys.executable, os.path.join(HERE, "vcheck.py"), c, "--tier", args.tier],
                               env=env, text=True, capture_output=True, cwd=VERIF)
            lines = [l for l in r.stdout.split("\n") if l.startswith("VIOLATION") or l.startswith("KNOWN")]
            print("CHECK %s rc=%d %s" % (c, r.returncode, " | ".join(lines[:4]) + (" ... (%d lines)" % len(lines) if len(lines) > 4 else "")))
            if r.returncode not in (0, 1):
                print(r.stderr[-1500:])
            rc = max(rc, r.returncode)
    finally:
        if not args.keep:
            sh("git -C /repo worktree remove --force %s" % wt)
            shutil.rmtree(wt, ignore_errors=True)
            shutil.rmtree("/var/tmp/grcverif_mutscratch", ignore_errors=True)
            sh("git -C /repo worktree prune")
    return rc


if __name__ == "__main__":
    sys.exit(main())
